//! C18 — backup archives restore the same account and cannot escape
//! their target.
//!
//! Part 1 (round trip, K1): accounts built with real `LocalAccount`
//! calls from short histories (a common base: user folder with flags
//! LOCAL|NO_SYNC and a description, secrets of several kinds, a renamed
//! folder, a deleted secret, one external file attachment; followed by
//! every suffix over a small alphabet up to a depth) x archive
//! format / back-end pairs {file system -> v2, sqlite -> v3,
//! file system -> v2 -> upgrade_backup_archive -> v3 -> sqlite}.
//! export -> import into an EMPTY data directory -> sign in with the
//! same password -> deep AccountView equal, attachments decrypt to the
//! same bytes.
//!
//! Part 2 (hostile archives, K4): every single-entry mutation of a valid
//! archive (content byte, manifest checksum character, removal,
//! duplication, rename to escaping names, manifest account id / version).
//! Oracle: never a panic; checksum mismatch => refused and no account in
//! the target; for every archive (hostile or not) nothing outside the
//! import target changes.
use anyhow::{anyhow, Context, Result};
use futures::FutureExt;
use serde::{Deserialize, Serialize};
use serde_json::{json, Map, Value};
use sos_account::{Account, LocalAccount};
use sos_backend::BackendTarget;
use sos_client_storage::{AccessOptions, NewFolderOptions};
use sos_core::{AccountId, ExternalFileName, SecretId, VaultFlags, VaultId};
use sos_sync::SyncStorage;
use sos_vault::secret::{FileContent, Secret, SecretRow};
use std::collections::{BTreeMap, BTreeSet};
use std::panic::AssertUnwindSafe;
use std::path::{Path, PathBuf};
use std::sync::Mutex;
use vkit::acct::{
    account_view, close_target, target_for, AccountView, Backend, Dev,
    PASSWORD, PASSWORD2,
};
use vkit::pool::{self, PoolOpts};
use vkit::run::{push_sample, Args, Run, Tier};
use vkit::world::{status_diff, status_view};
use vkit::{clock, fsutil, gen};

// ------------------------------------------------------------ histories

#[derive(Clone, Debug, Serialize, Deserialize, PartialEq, Eq)]
enum Op {
    /// create a user folder; optionally flags LOCAL|NO_SYNC + description
    Folder { flags: bool, desc: bool },
    /// create a secret of `kind` in folder slot f (0 = default folder)
    Secret { f: usize, kind: String, variant: u8 },
    Rename { f: usize },
    Update { s: usize },
    DeleteSecret { s: usize },
    /// move to the archive folder
    Archive { s: usize },
    Move { s: usize, to: usize },
    /// external file secret created from a real file on disc
    Attach { f: usize },
    /// external file added as a custom field of secret s
    AttachField { s: usize },
    /// embedded custom fields (note + embedded file) and a comment
    CustomField { s: usize },
    DeleteFolder { f: usize },
    Compact { f: usize },
    ChangePassword,
    /// trust a second (mock) device
    TrustDevice,
}

#[derive(Clone, Debug, Serialize, Deserialize)]
struct Shape {
    name: String,
    with_archive: bool,
    ops: Vec<Op>,
}

/// Bookkeeping shared by the validity simulation and the real run.
#[derive(Default)]
struct St {
    folders: Vec<(bool, Option<VaultId>)>,
    /// (alive, folder slot, id, kind); folder slot usize::MAX = archive
    secrets: Vec<(bool, usize, Option<SecretId>, String)>,
    has_archive: bool,
    password: u8,
    /// plain bytes of every external file created: (secret slot, bytes)
    attachments: Vec<(usize, Vec<u8>)>,
}

const ARCHIVE_SLOT: usize = usize::MAX;

fn base_ops(kinds: [&str; 3]) -> Vec<Op> {
    vec![
        Op::Folder { flags: true, desc: true },
        Op::Secret { f: 0, kind: kinds[0].into(), variant: 0 },
        Op::Secret { f: 1, kind: kinds[1].into(), variant: 1 },
        Op::Secret { f: 0, kind: kinds[2].into(), variant: 0 },
        Op::Rename { f: 1 },
        Op::DeleteSecret { s: 0 },
        Op::Attach { f: 0 },
    ]
}

fn suffix_alphabet(tier: Tier) -> Vec<Op> {
    let mut v = vec![
        Op::Secret { f: 1, kind: "card".into(), variant: 1 },
        Op::Update { s: 1 },
        Op::Archive { s: 2 },
        // move the file secret into the flagged folder
        Op::Move { s: 3, to: 1 },
        Op::DeleteFolder { f: 1 },
        Op::CustomField { s: 2 },
        Op::Compact { f: 0 },
        Op::ChangePassword,
        // delete the file secret (blob removed, files log has a delete)
        Op::DeleteSecret { s: 3 },
        Op::Rename { f: 0 },
        // a second external file owned by the file secret
        Op::AttachField { s: 3 },
    ];
    if tier == Tier::Thorough {
        v.push(Op::Folder { flags: false, desc: false });
        v.push(Op::AttachField { s: 1 });
        v.push(Op::Secret { f: 0, kind: "page".into(), variant: 3 });
    }
    v
}

/// Apply to the bookkeeping only; None if the op is not enabled.
fn sim(st: &mut St, op: &Op) -> Option<()> {
    let folder_ok = |st: &St, f: usize| st.folders.get(f).map(|x| x.0) == Some(true);
    let secret_ok = |st: &St, s: usize| st.secrets.get(s).map(|x| x.0) == Some(true);
    match op {
        Op::Folder { .. } => st.folders.push((true, None)),
        Op::Secret { f, kind, .. } => {
            if !folder_ok(st, *f) {
                return None;
            }
            st.secrets.push((true, *f, None, kind.clone()));
        }
        Op::Rename { f } | Op::Compact { f } => {
            if !folder_ok(st, *f) {
                return None;
            }
        }
        Op::Update { s } | Op::CustomField { s } => {
            if !secret_ok(st, *s) || st.secrets[*s].3 == "file-ext" {
                return None;
            }
        }
        // a file field may also be added to the file secret itself (one
        // secret then owns two external files)
        Op::AttachField { s } => {
            if !secret_ok(st, *s) {
                return None;
            }
        }
        Op::DeleteSecret { s } => {
            if !secret_ok(st, *s) {
                return None;
            }
            st.secrets[*s].0 = false;
        }
        Op::Archive { s } => {
            if !secret_ok(st, *s) || !st.has_archive || st.secrets[*s].1 == ARCHIVE_SLOT {
                return None;
            }
            st.secrets[*s].1 = ARCHIVE_SLOT;
        }
        Op::Move { s, to } => {
            if !secret_ok(st, *s) || !folder_ok(st, *to) || st.secrets[*s].1 == *to {
                return None;
            }
            st.secrets[*s].1 = *to;
        }
        Op::Attach { f } => {
            if !folder_ok(st, *f) {
                return None;
            }
            st.secrets.push((true, *f, None, "file-ext".into()));
        }
        Op::DeleteFolder { f } => {
            if *f == 0 || !folder_ok(st, *f) {
                return None;
            }
            st.folders[*f].0 = false;
            for s in st.secrets.iter_mut() {
                if s.1 == *f {
                    s.0 = false;
                }
            }
        }
        Op::ChangePassword => st.password += 1,
        Op::TrustDevice => {}
    }
    Some(())
}

fn valid(shape: &Shape) -> bool {
    let mut st = St { has_archive: shape.with_archive, ..Default::default() };
    st.folders.push((true, None));
    shape.ops.iter().all(|o| sim(&mut st, o).is_some())
}

fn shapes(tier: Tier) -> Vec<Shape> {
    let mut v = vec![];
    let kind_sets: [[&str; 3]; 5] = [
        ["note", "login", "list"],
        ["card", "bank", "contact"],
        ["totp", "pem", "page"],
        ["identity", "age", "signer"],
        ["password", "link", "file"],
    ];
    // specials
    v.push(Shape { name: "empty".into(), with_archive: true, ops: vec![] });
    v.push(Shape {
        name: "no-archive-folder".into(),
        with_archive: false,
        ops: vec![
            Op::Secret { f: 0, kind: "identity".into(), variant: 1 },
            Op::Secret { f: 0, kind: "age".into(), variant: 0 },
            Op::Secret { f: 0, kind: "signer".into(), variant: 0 },
            Op::Folder { flags: true, desc: false },
            Op::Folder { flags: false, desc: true },
            Op::Secret { f: 2, kind: "file".into(), variant: 0 },
            Op::DeleteFolder { f: 1 },
        ],
    });
    v.push(Shape {
        name: "empty-values".into(),
        with_archive: true,
        ops: vec![
            Op::Folder { flags: true, desc: true },
            Op::Secret { f: 0, kind: "note".into(), variant: 2 },
            Op::Secret { f: 1, kind: "login".into(), variant: 2 },
            Op::CustomField { s: 0 },
        ],
    });
    v.push(Shape {
        name: "second-device".into(),
        with_archive: true,
        ops: vec![Op::Secret { f: 0, kind: "password".into(), variant: 1 }, Op::TrustDevice, Op::Secret { f: 0, kind: "link".into(), variant: 0 }],
    });
    // base alone, with each kind set
    let nbase = tier.pick(2, kind_sets.len());
    for (i, ks) in kind_sets.iter().enumerate().take(nbase) {
        v.push(Shape { name: format!("base{}", i), with_archive: true, ops: base_ops(*ks) });
    }
    // base ++ every suffix up to the depth
    let alpha = suffix_alphabet(tier);
    let depth = tier.pick(1, 2);
    let mut frontier: Vec<Vec<usize>> = vec![vec![]];
    let mut n = 0usize;
    for _ in 0..depth {
        let mut next = vec![];
        for p in &frontier {
            for a in 0..alpha.len() {
                let mut q = p.clone();
                q.push(a);
                let mut ops = base_ops(kind_sets[n % kind_sets.len()]);
                // quick: blob encryption/decryption costs seconds, so
                // only the suffixes that touch the file secret (slot 3)
                // keep the attachment of the base history
                let touches_file = q.iter().any(|i| matches!(&alpha[*i], Op::Move { s: 3, .. } | Op::DeleteSecret { s: 3 } | Op::AttachField { .. }));
                // thorough: every length-1 suffix keeps it too
                if (tier == Tier::Quick || q.len() > 1) && !touches_file {
                    ops.retain(|o| !matches!(o, Op::Attach { .. }));
                }
                ops.extend(q.iter().map(|i| alpha[*i].clone()));
                let sh = Shape {
                    name: format!("base+{}", q.iter().map(|i| i.to_string()).collect::<Vec<_>>().join(".")),
                    with_archive: true,
                    ops,
                };
                if valid(&sh) {
                    v.push(sh);
                    n += 1;
                    next.push(q);
                }
            }
        }
        frontier = next;
    }
    v
}

fn pw(idx: u8) -> secrecy::SecretString {
    let s = if idx % 2 == 0 { PASSWORD } else { PASSWORD2 };
    secrecy::SecretString::new(s.to_string().into())
}

fn attachment_bytes(marker: &str, slot: usize) -> Vec<u8> {
    let mut b = format!("attachment {} slot {} ", marker, slot).into_bytes();
    b.extend((0..=255u8).rev());
    b.extend(format!(" end-of-attachment-{}", slot).as_bytes());
    b
}

async fn apply(dev: &mut Dev, st: &mut St, op: &Op, marker: &str, scratch: &Path) -> Result<()> {
    let fid = |st: &St, f: usize| -> Result<VaultId> {
        st.folders[f].1.ok_or_else(|| anyhow!("folder slot {} has no id", f))
    };
    let acc = &mut dev.account;
    match op {
        Op::Folder { flags, desc } => {
            let n = st.folders.len();
            let r = acc.create_folder(NewFolderOptions::new(format!("user-folder-{}", n))).await?;
            let id = *r.folder.id();
            if *flags {
                acc.update_folder_flags(&id, VaultFlags::LOCAL | VaultFlags::NO_SYNC).await?;
            }
            if *desc {
                acc.set_folder_description(&id, format!("description of folder {} ({}) é✓", n, marker)).await?;
            }
            st.folders.push((true, Some(id)));
        }
        Op::Secret { f, kind, variant } => {
            let slot = st.secrets.len();
            let (meta, secret) = gen::secret(kind, *variant, &format!("{}s{}", marker, slot));
            let r = acc
                .create_secret(meta, secret, AccessOptions { folder: Some(fid(st, *f)?), ..Default::default() })
                .await?;
            st.secrets.push((true, *f, Some(r.id), kind.clone()));
        }
        Op::Rename { f } => {
            acc.rename_folder(&fid(st, *f)?, format!("renamed-folder-{}-{}", f, marker)).await?;
        }
        Op::Update { s } => {
            let (_, f, id, kind) = st.secrets[*s].clone();
            let folder = secret_folder(st, dev_archive(&dev.account).await, f)?;
            let (meta, secret) = gen::secret(&kind, 1, &format!("{}s{}u", marker, s));
            dev.account
                .update_secret(&id.unwrap(), meta, Some(secret), AccessOptions { folder: Some(folder), ..Default::default() })
                .await?;
            // the new value has no custom fields: an external file that
            // was attached as a field of this secret is gone with them
            st.attachments.retain(|(slot, _)| slot != s);
        }
        Op::DeleteSecret { s } => {
            let (_, f, id, _) = st.secrets[*s].clone();
            let folder = secret_folder(st, dev_archive(&dev.account).await, f)?;
            dev.account
                .delete_secret(&id.unwrap(), AccessOptions { folder: Some(folder), ..Default::default() })
                .await?;
            st.secrets[*s].0 = false;
        }
        Op::Archive { s } => {
            let (_, f, id, _) = st.secrets[*s].clone();
            let from = fid(st, f)?;
            let r = acc.archive(&from, &id.unwrap(), Default::default()).await?;
            st.secrets[*s].1 = ARCHIVE_SLOT;
            st.secrets[*s].2 = Some(r.id);
        }
        Op::Move { s, to } => {
            let (_, f, id, _) = st.secrets[*s].clone();
            let from = secret_folder(st, dev_archive(&dev.account).await, f)?;
            let r = dev.account.move_secret(&id.unwrap(), &from, &fid(st, *to)?, Default::default()).await?;
            st.secrets[*s].1 = *to;
            st.secrets[*s].2 = Some(r.id);
        }
        Op::Attach { f } => {
            let slot = st.secrets.len();
            let bytes = attachment_bytes(marker, slot);
            let path = scratch.join(format!("att-{}.txt", slot));
            std::fs::write(&path, &bytes)?;
            let secret: Secret = path.clone().try_into()?;
            let mut meta = sos_vault::secret::SecretMeta::new(format!("external-file-{}-{}", slot, marker), secret.kind());
            meta.set_favorite(true);
            let r = acc
                .create_secret(meta, secret, AccessOptions { folder: Some(fid(st, *f)?), ..Default::default() })
                .await?;
            st.secrets.push((true, *f, Some(r.id), "file-ext".into()));
            st.attachments.push((slot, bytes));
        }
        Op::AttachField { s } => {
            let (_, f, id, _) = st.secrets[*s].clone();
            let folder = secret_folder(st, dev_archive(&dev.account).await, f)?;
            let bytes = attachment_bytes(marker, 1000 + *s);
            let path = scratch.join(format!("att-field-{}.txt", s));
            std::fs::write(&path, &bytes)?;
            let fsecret: Secret = path.clone().try_into()?;
            let fmeta = sos_vault::secret::SecretMeta::new(format!("attached-file-{}", s), fsecret.kind());
            let (mut row, _) = dev.account.read_secret(&id.unwrap(), Some(&folder)).await?;
            row.secret_mut().add_field(SecretRow::new(SecretId::new_v4(), fmeta, fsecret));
            dev.account
                .update_secret(&id.unwrap(), row.meta().clone(), Some(row.secret().clone()), AccessOptions { folder: Some(folder), ..Default::default() })
                .await?;
            st.attachments.push((*s, bytes));
        }
        Op::CustomField { s } => {
            let (_, f, id, _) = st.secrets[*s].clone();
            let folder = secret_folder(st, dev_archive(&dev.account).await, f)?;
            let (mut row, _) = dev.account.read_secret(&id.unwrap(), Some(&folder)).await?;
            let (m1, s1) = gen::secret("note", 1, &format!("{}field{}", marker, s));
            let (m2, s2) = gen::secret("file", 0, &format!("{}field{}", marker, s));
            row.secret_mut().add_field(SecretRow::new(SecretId::new_v4(), m1, s1));
            row.secret_mut().add_field(SecretRow::new(SecretId::new_v4(), m2, s2));
            row.secret_mut().user_data_mut().set_comment(Some(format!("comment on secret {} ({}) ü", s, marker)));
            dev.account
                .update_secret(&id.unwrap(), row.meta().clone(), Some(row.secret().clone()), AccessOptions { folder: Some(folder), ..Default::default() })
                .await?;
        }
        Op::DeleteFolder { f } => {
            acc.delete_folder(&fid(st, *f)?).await?;
            st.folders[*f].0 = false;
            for s in st.secrets.iter_mut() {
                if s.1 == *f {
                    s.0 = false;
                }
            }
        }
        Op::Compact { f } => {
            acc.compact_folder(&fid(st, *f)?).await?;
        }
        Op::ChangePassword => {
            let np = st.password + 1;
            acc.change_account_password(pw(np)).await?;
            st.password = np;
            dev.password = pw(np);
        }
        Op::TrustDevice => {
            let device = sos_test_utils::mock::device()?;
            acc.patch_devices_unchecked(&[sos_core::events::DeviceEvent::Trust(device)]).await?;
        }
    }
    Ok(())
}

async fn device_keys(acc: &LocalAccount) -> Result<BTreeSet<String>> {
    Ok(acc.trusted_devices().await?.iter().map(|d| hex::encode(d.public_key().as_ref())).collect())
}

async fn dev_archive(acc: &LocalAccount) -> Option<VaultId> {
    acc.archive_folder().await.map(|s| *s.id())
}

fn secret_folder(st: &St, archive: Option<VaultId>, f: usize) -> Result<VaultId> {
    if f == ARCHIVE_SLOT {
        archive.ok_or_else(|| anyhow!("no archive folder"))
    } else {
        st.folders[f].1.ok_or_else(|| anyhow!("folder slot {} has no id", f))
    }
}

// ------------------------------------------------- pairs and round trip

#[derive(Clone, Copy, Debug, Serialize, Deserialize, PartialEq, Eq, PartialOrd, Ord)]
enum Pair {
    /// file-system account -> v2 archive -> file-system storage
    FsV2,
    /// sqlite account -> v3 archive -> sqlite storage
    DbV3,
    /// file-system account -> v2 archive -> upgrade_backup_archive -> v3 -> sqlite storage
    FsV2UpV3,
}

impl Pair {
    fn tag(&self) -> &'static str {
        match self {
            Pair::FsV2 => "v2_fs",
            Pair::DbV3 => "v3_sqlite",
            Pair::FsV2UpV3 => "v2_upgraded_v3_sqlite",
        }
    }
    fn src(&self) -> Backend {
        match self {
            Pair::FsV2 | Pair::FsV2UpV3 => Backend::Fs,
            Pair::DbV3 => Backend::Db,
        }
    }
    fn dst(&self) -> Backend {
        match self {
            Pair::FsV2 => Backend::Fs,
            Pair::DbV3 | Pair::FsV2UpV3 => Backend::Db,
        }
    }
}

#[derive(Clone, Debug, Serialize, Deserialize)]
struct Item {
    shape: usize,
    pair: Pair,
    /// save the exported archive as a seed of the hostile stage
    seed: Option<usize>,
}

fn items(tier: Tier, shapes: &[Shape]) -> Vec<Item> {
    let mut v = vec![];
    // seeds: the first full base shape (+ two more in thorough)
    let seed_shapes: Vec<usize> = {
        let base0 = shapes.iter().position(|s| s.name == "base0").unwrap();
        let mut s = vec![base0];
        if tier == Tier::Thorough {
            if let Some(i) = shapes.iter().position(|s| s.name == "base+5") {
                s.push(i);
            }
            if let Some(i) = shapes.iter().position(|s| s.name == "no-archive-folder") {
                s.push(i);
            }
        }
        s
    };
    for (i, _) in shapes.iter().enumerate() {
        for pair in [Pair::FsV2, Pair::DbV3] {
            let seed = seed_shapes.iter().position(|s| *s == i);
            v.push(Item { shape: i, pair, seed });
        }
        // the upgrade path for a subset
        let up = match tier {
            Tier::Quick => i < 6,
            Tier::Thorough => i % 3 == 0 || i < 8,
        };
        if up {
            v.push(Item { shape: i, pair: Pair::FsV2UpV3, seed: None });
        }
    }
    v
}

/// (folder, owning secret, file name) of every external file of a row.
fn external_files(folder: &VaultId, row: &SecretRow) -> Vec<(VaultId, SecretId, ExternalFileName, String)> {
    let mut out = vec![];
    let mut visit = |s: &Secret| {
        if let Secret::File { content: FileContent::External { checksum, name, .. }, .. } = s {
            out.push((*folder, *row.id(), ExternalFileName::from(*checksum), name.clone()));
        }
    };
    visit(row.secret());
    for f in row.secret().user_data().fields() {
        visit(f.secret());
    }
    out
}

/// Decrypt every external file of the account: "folder/secret/name" -> sha256 of plain bytes.
async fn attachments_view(acc: &mut LocalAccount, download: bool) -> Result<BTreeMap<String, String>> {
    let mut out = BTreeMap::new();
    for s in acc.list_folders().await? {
        for id in acc.list_secret_ids(s.id()).await? {
            let (row, _) = acc.read_secret(&id, Some(s.id())).await?;
            for (v, sid, name, label) in external_files(s.id(), &row) {
                let key = format!("{}/{}/{}:{}", v, sid, name, label);
                if !download {
                    out.insert(key, "<listed>".into());
                    continue;
                }
                // age derives the largest scrypt work factor it accepts from
                // the current speed of the machine: under load it may refuse a
                // blob it encrypted a moment ago; that refusal is retried
                let mut r = acc.download_file(&v, &sid, &name).await;
                for _ in 0..10 {
                    match &r {
                        Err(e) if e.to_string().to_lowercase().contains("work parameter") => {
                            tokio::time::sleep(std::time::Duration::from_secs(2)).await;
                            r = acc.download_file(&v, &sid, &name).await;
                        }
                        _ => break,
                    }
                }
                out.insert(
                    key,
                    match r {
                        Ok(b) => fsutil::sha256_hex(&b),
                        Err(e) => format!("<unreadable: {}>", norm_msg(&e.to_string())),
                    },
                );
            }
        }
    }
    Ok(out)
}

fn sorted_secrets(f: &vkit::acct::FolderView) -> BTreeMap<String, (Value, Value)> {
    f.secrets.iter().map(|(id, m, s)| (id.clone(), (m.clone(), s.clone()))).collect()
}

/// Clauses of the view oracle that differ: (clause, human detail).
fn view_diff(a: &AccountView, b: &AccountView) -> Vec<(String, String)> {
    let mut out = vec![];
    let ia: BTreeSet<&String> = a.folders.iter().map(|f| &f.id).collect();
    let ib: BTreeSet<&String> = b.folders.iter().map(|f| &f.id).collect();
    if ia != ib {
        out.push(("folder_set".to_string(), format!("source has {} folders, restored has {}", ia.len(), ib.len())));
    }
    for fa in &a.folders {
        let Some(fb) = b.folder(&fa.id) else { continue };
        if fa.name != fb.name {
            out.push(("folder_name".into(), format!("{:?} became {:?}", fa.name, fb.name)));
        }
        if fa.flags != fb.flags {
            out.push(("folder_flags".into(), format!("flags {:#x} became {:#x} (folder {:?})", fa.flags, fb.flags, fa.name)));
        }
        if fa.description != fb.description {
            out.push(("folder_description".into(), format!("{:?} became {:?}", fa.description, fb.description)));
        }
        let sa = sorted_secrets(fa);
        let sb = sorted_secrets(fb);
        if sa.keys().collect::<Vec<_>>() != sb.keys().collect::<Vec<_>>() {
            out.push(("secret_set".into(), format!("folder {:?}: {} secrets became {}", fa.name, sa.len(), sb.len())));
        }
        for (id, (ma, va)) in &sa {
            let Some((mb, vb)) = sb.get(id) else { continue };
            if ma != mb {
                out.push(("secret_meta".into(), format!("meta of a {} secret differs at {}", ma["kind"], json_diff_path(ma, mb, ""))));
            }
            if va != vb {
                out.push(("secret_value".into(), format!("decrypted value of a {} secret differs at {}", ma["kind"], json_diff_path(va, vb, ""))));
            }
        }
    }
    out
}

/// Tags are a set (HashSet in the implementation): sort every "tags"
/// array, also inside custom fields.
fn norm_tags(v: &mut Value) {
    match v {
        Value::Object(m) => {
            for (k, x) in m.iter_mut() {
                if k == "tags" {
                    if let Value::Array(a) = x {
                        a.sort_by_key(|t| t.to_string());
                    }
                } else {
                    norm_tags(x);
                }
            }
        }
        Value::Array(a) => a.iter_mut().for_each(norm_tags),
        _ => {}
    }
}

fn norm_view(v: &mut AccountView) {
    for f in v.folders.iter_mut() {
        for s in f.secrets.iter_mut() {
            norm_tags(&mut s.1);
            norm_tags(&mut s.2);
        }
    }
}

/// First path at which two JSON values differ (values abbreviated).
fn json_diff_path(a: &Value, b: &Value, at: &str) -> String {
    let short = |v: &Value| -> String {
        let s = v.to_string();
        if s.len() > 80 {
            format!("{}...({} chars)", s.chars().take(80).collect::<String>(), s.len())
        } else {
            s
        }
    };
    match (a, b) {
        (Value::Object(x), Value::Object(y)) => {
            let keys: BTreeSet<&String> = x.keys().chain(y.keys()).collect();
            for k in keys {
                match (x.get(k), y.get(k)) {
                    (Some(p), Some(q)) if p == q => {}
                    (Some(p), Some(q)) => return json_diff_path(p, q, &format!("{}/{}", at, k)),
                    (Some(p), None) => return format!("{}/{}: {} became absent", at, k, short(p)),
                    (None, Some(q)) => return format!("{}/{}: absent became {}", at, k, short(q)),
                    _ => {}
                }
            }
            format!("{}: equal", at)
        }
        (Value::Array(x), Value::Array(y)) => {
            if x.len() != y.len() {
                return format!("{}: array of {} became array of {}", at, x.len(), y.len());
            }
            for (i, (p, q)) in x.iter().zip(y.iter()).enumerate() {
                if p != q {
                    return json_diff_path(p, q, &format!("{}/{}", at, i));
                }
            }
            format!("{}: equal", at)
        }
        _ => format!("{}: {} became {}", at, short(a), short(b)),
    }
}

/// Ids-free digest of the shape of a view (for the distinct-account count).
fn shape_digest(v: &AccountView) -> String {
    let mut fs: Vec<Value> = v
        .folders
        .iter()
        .map(|f| {
            let mut ss: Vec<String> = f.secrets.iter().map(|(_, m, s)| format!("{}|{}", m, fsutil::sha256_hex(s.to_string().as_bytes()))).collect();
            ss.sort();
            json!({"name": f.name, "flags": f.flags, "desc": f.description, "secrets": ss})
        })
        .collect();
    fs.sort_by_key(|a| a.to_string());
    fsutil::sha256_hex(Value::Array(fs).to_string().as_bytes())
}

static LAST_PANIC: Mutex<Option<String>> = Mutex::new(None);
/// true while the code under test runs under catch_unwind
static GUARDED: std::sync::atomic::AtomicBool = std::sync::atomic::AtomicBool::new(false);

fn install_panic_hook() {
    std::panic::set_hook(Box::new(|info| {
        let loc = info.location().map(|l| format!("{}:{}", l.file(), l.line())).unwrap_or_default();
        let msg = if let Some(s) = info.payload().downcast_ref::<&str>() {
            s.to_string()
        } else if let Some(s) = info.payload().downcast_ref::<String>() {
            s.clone()
        } else {
            "panic".to_string()
        };
        if !GUARDED.load(std::sync::atomic::Ordering::SeqCst) {
            eprintln!("archx: harness panic: {} @ {}", msg, loc);
        }
        if let Ok(mut g) = LAST_PANIC.lock() {
            *g = Some(format!("{} @ {}", msg, loc));
        }
    }));
}

/// Normalise a message for use in a signature: no ids, digits, paths.
fn norm_msg(s: &str) -> String {
    let mut out = String::new();
    let mut last_us = false;
    for tok in s.split(|c: char| !(c.is_ascii_alphanumeric() || c == '/' || c == '.' || c == '@')) {
        if tok.is_empty() {
            continue;
        }
        let t = tok.to_lowercase();
        let is_id = t.len() >= 8 && t.chars().all(|c| c.is_ascii_hexdigit() || c == 'x');
        let is_num = t.chars().all(|c| c.is_ascii_digit());
        let is_tmp = t.contains("/dev/shm") || t.contains("/tmp") || t.contains("verif-");
        let piece = if is_id {
            "ID".to_string()
        } else if is_num {
            "N".to_string()
        } else if is_tmp {
            "PATH".to_string()
        } else {
            t.replace("/repo/", "")
        };
        if !out.is_empty() && !last_us {
            out.push('_');
        }
        out.push_str(&piece);
        last_us = false;
        if out.len() > 110 {
            break;
        }
    }
    out
}

/// Where a panic came from, file only (lines shift).
fn panic_sig(p: &str) -> String {
    let (msg, loc) = p.rsplit_once(" @ ").unwrap_or((p, ""));
    let file = loc.rsplit_once(':').map(|x| x.0).unwrap_or(loc).replace("/repo/", "");
    let m = norm_msg(msg);
    let m: String = m.chars().take(60).collect();
    format!("{}@{}", m, file)
}

enum Outcome {
    Accepted(Vec<sos_core::PublicIdentity>),
    Rejected(String),
    Panicked(String),
}

/// Import under catch_unwind.
async fn guarded_import(archive: &Path, target: &BackendTarget, via_account: bool) -> Outcome {
    if let Ok(mut g) = LAST_PANIC.lock() {
        *g = None;
    }
    let fut = async {
        if via_account {
            LocalAccount::import_backup_archive(archive, target).await.map_err(|e| e.to_string())
        } else {
            sos_backend::archive::import_backup_archive(archive, target).await.map_err(|e| e.to_string())
        }
    };
    GUARDED.store(true, std::sync::atomic::Ordering::SeqCst);
    let caught = AssertUnwindSafe(fut).catch_unwind().await;
    GUARDED.store(false, std::sync::atomic::Ordering::SeqCst);
    match caught {
        Ok(Ok(v)) => Outcome::Accepted(v),
        Ok(Err(e)) => Outcome::Rejected(e),
        Err(p) => {
            let hook = LAST_PANIC.lock().ok().and_then(|g| g.clone());
            let msg = hook.unwrap_or_else(|| {
                if let Some(s) = p.downcast_ref::<&str>() {
                    s.to_string()
                } else if let Some(s) = p.downcast_ref::<String>() {
                    s.clone()
                } else {
                    "panic".into()
                }
            });
            Outcome::Panicked(msg)
        }
    }
}

/// Paths of `root` that changed, outside `allowed_prefix`.
fn outside_changes(before: &BTreeMap<String, String>, after: &BTreeMap<String, String>, allowed: &[&str]) -> Vec<String> {
    let mut out = vec![];
    let keys: BTreeSet<&String> = before.keys().chain(after.keys()).collect();
    for k in keys {
        if before.get(k) != after.get(k) && !allowed.iter().any(|a| k == a || k.starts_with(&format!("{}/", a))) {
            out.push(k.clone());
        }
    }
    out
}

struct Built {
    dev: Dev,
    st: St,
    nops: usize,
}

async fn build_account(dir: &Path, scratch: &Path, shape: &Shape, backend: Backend, marker: &str) -> Result<Built> {
    clock::install();
    let mut dev = Dev::create(dir, backend, &format!("archx-{}", shape.name), shape.with_archive).await?;
    let mut st = St { has_archive: shape.with_archive, ..Default::default() };
    let default = dev.account.default_folder().await.ok_or_else(|| anyhow!("no default folder"))?;
    st.folders.push((true, Some(*default.id())));
    let mut nops = 0;
    for op in &shape.ops {
        apply(&mut dev, &mut st, op, marker, scratch).await.with_context(|| format!("apply {:?}", op))?;
        nops += 1;
    }
    Ok(Built { dev, st, nops })
}

async fn export_for_pair(dev: &Dev, pair: Pair, out_dir: &Path) -> std::result::Result<PathBuf, String> {
    let first = out_dir.join("export.zip");
    dev.account.export_backup_archive(&first).await.map_err(|e| format!("export: {}", e))?;
    if pair == Pair::FsV2UpV3 {
        let up = out_dir.join("export-v3.zip");
        sos_database_upgrader::archive::upgrade_backup_archive(&first, &up)
            .await
            .map_err(|e| format!("upgrade_backup_archive: {}", e))?;
        Ok(up)
    } else {
        Ok(first)
    }
}

async fn run_roundtrip(shapes: &[Shape], it: &Item, wd: &Path, marker: &str, shared: Option<&Path>, tier: Tier) -> Value {
    let shape = &shapes[it.shape];
    let tag = it.pair.tag();
    let mut fails: Vec<Value> = vec![];
    let mut info = Map::new();
    let res: Result<Value> = async {
        let _ = std::fs::remove_dir_all(wd);
        std::fs::create_dir_all(wd)?;
        let src_dir = wd.join("src");
        let scratch = wd.join("scratch");
        std::fs::create_dir_all(&scratch)?;
        let Built { mut dev, st, nops } = build_account(&src_dir, &scratch, shape, it.pair.src(), marker).await?;
        let account_id = dev.account_id;
        let label = dev.account.account_name().await?;
        let mut src_view = account_view(&mut dev.account, true).await?;
        norm_view(&mut src_view);
        // quick: the source blobs are listed only (each decryption costs
        // seconds); the restored ones are compared with the plain bytes
        // that were put in
        let decrypt_source = tier == Tier::Thorough && shape.ops.len() <= 8;
        let src_att = attachments_view(&mut dev.account, decrypt_source).await?;
        let mut expected_att: Vec<String> = st
            .attachments
            .iter()
            .filter(|(slot, _)| st.secrets.get(*slot).map(|s| s.0).unwrap_or(false))
            .map(|(_, b)| fsutil::sha256_hex(b))
            .collect();
        expected_att.sort();
        if src_att.len() != expected_att.len() {
            return Err(anyhow!("source account lists {} external files, {} expected", src_att.len(), expected_att.len()));
        }
        if decrypt_source {
            let mut got: Vec<String> = src_att.values().cloned().collect();
            got.sort();
            if got != expected_att {
                return Err(anyhow!("source account does not serve its own attachments: expected {:?} got {:?}", expected_att, src_att));
            }
        }
        let src_status = status_view(&dev.account.sync_status().await?);
        let src_devices = device_keys(&dev.account).await?;
        let digest = shape_digest(&src_view);
        let out_dir = wd.join("out");
        std::fs::create_dir_all(&out_dir)?;
        let archive = match export_for_pair(&dev, it.pair, &out_dir).await {
            Ok(p) => p,
            Err(e) => {
                fails.push(json!({"sig": format!("roundtrip:export_failed:{}:{}", norm_msg(&e).chars().take(60).collect::<String>(), tag), "what": format!("exporting a backup archive of a valid account failed: {}", e)}));
                dev.close().await;
                return Ok(json!({"ops": nops, "digest": digest, "transitions": nops + 1}));
            }
        };
        let password = dev.password.clone();
        if let (Some(n), Some(shared)) = (it.seed, shared) {
            let sd = shared.join(format!("seed-{}-{}", tag, n));
            std::fs::create_dir_all(&sd)?;
            std::fs::copy(&archive, sd.join("archive.zip"))?;
            std::fs::write(
                sd.join("meta.json"),
                serde_json::to_vec(&json!({"account_id": account_id.to_string(), "view": src_view, "password_idx": st.password, "shape": it.shape}))?,
            )?;
        }
        dev.close().await;

        // import into empty storage, inside a watched parent
        let watched = wd.join("watched");
        let parent = watched.join("parent");
        let target_dir = parent.join("target");
        std::fs::create_dir_all(&target_dir)?;
        std::fs::write(parent.join("sibling.txt"), b"sibling of the import target")?;
        let target = target_for(&target_dir, it.pair.dst()).await?;
        let before_accounts = target.list_accounts().await?;
        if !before_accounts.is_empty() {
            return Err(anyhow!("fresh target lists accounts"));
        }
        let before = fsutil::tree_digest(&watched);
        let outcome = guarded_import(&archive, &target, true).await;
        let after = fsutil::tree_digest(&watched);
        close_target(&target).await;
        let outside = outside_changes(&before, &after, &["parent/target"]);
        if !outside.is_empty() {
            fails.push(json!({"sig": format!("roundtrip:wrote_outside_target:{}", tag), "what": format!("importing a valid archive changed paths outside the import target: {:?}", outside)}));
        }
        let imported = match outcome {
            Outcome::Accepted(v) => v,
            Outcome::Rejected(e) => {
                fails.push(json!({"sig": format!("roundtrip:import_failed:{}:{}", norm_msg(&e).chars().take(60).collect::<String>(), tag), "what": format!("importing a freshly exported archive into empty storage failed: {}", e)}));
                return Ok(json!({"ops": nops, "digest": digest, "transitions": nops + 2}));
            }
            Outcome::Panicked(p) => {
                fails.push(json!({"sig": format!("roundtrip:import_panic:{}:{}", panic_sig(&p), tag), "what": format!("importing a freshly exported archive panicked: {}", p)}));
                return Ok(json!({"ops": nops, "digest": digest, "transitions": nops + 2}));
            }
        };
        if imported.len() != 1 || imported[0].account_id() != &account_id {
            fails.push(json!({"sig": format!("roundtrip:import_wrong_identity:{}", tag), "what": format!("import reported {:?}, expected exactly the account {}", imported.iter().map(|i| i.account_id().to_string()).collect::<Vec<_>>(), account_id)}));
        } else if imported[0].label() != label {
            fails.push(json!({"sig": format!("roundtrip:account_name_differs:{}", tag), "what": format!("account name {:?} became {:?}", label, imported[0].label())}));
        }
        // sign in with the same password
        let mut dst = match Dev::open(&target_dir, it.pair.dst(), account_id, password).await {
            Ok(d) => d,
            Err(e) => {
                fails.push(json!({"sig": format!("roundtrip:sign_in_failed:{}:{}", norm_msg(&e.to_string()).chars().take(60).collect::<String>(), tag), "what": format!("the restored account does not sign in with the same password: {}", e)}));
                return Ok(json!({"ops": nops, "digest": digest, "transitions": nops + 3}));
            }
        };
        let dst_view = account_view(&mut dst.account, true).await;
        match dst_view {
            Err(e) => {
                fails.push(json!({"sig": format!("roundtrip:view_unreadable:{}:{}", norm_msg(&e.to_string()).chars().take(60).collect::<String>(), tag), "what": format!("the restored account cannot be read: {}", e)}));
            }
            Ok(mut dst_view) => {
                norm_view(&mut dst_view);
                let mut seen = BTreeSet::new();
                for (clause, detail) in view_diff(&src_view, &dst_view) {
                    if seen.insert(clause.clone()) {
                        fails.push(json!({"sig": format!("roundtrip:view_differs:{}:{}", clause, tag), "what": format!("after export + import the account differs: {}", detail)}));
                    }
                }
                // listing order (reported, not required)
                let order_same = src_view.folders.iter().all(|fa| {
                    dst_view.folder(&fa.id).map(|fb| fa.secrets.iter().map(|s| &s.0).collect::<Vec<_>>() == fb.secrets.iter().map(|s| &s.0).collect::<Vec<_>>()).unwrap_or(true)
                });
                info.insert("listing_order_preserved".into(), json!(order_same));
            }
        }
        match attachments_view(&mut dst.account, true).await {
            Err(e) => {
                fails.push(json!({"sig": format!("roundtrip:attachments_unreadable:{}", tag), "what": format!("cannot enumerate the attachments of the restored account: {}", e)}));
            }
            Ok(dst_att) => {
                let mut got: Vec<String> = dst_att.values().cloned().collect();
                got.sort();
                let same_keys = dst_att.keys().collect::<Vec<_>>() == src_att.keys().collect::<Vec<_>>();
                if !same_keys || got != expected_att {
                    let unreadable = dst_att.values().any(|v| v.starts_with("<unreadable"));
                    let clause = if unreadable {
                        "unreadable"
                    } else if !same_keys {
                        "set_differs"
                    } else {
                        "differs"
                    };
                    fails.push(json!({"sig": format!("roundtrip:attachment_{}:{}", clause, tag), "what": format!("the {} attachment(s) do not decrypt to the same bytes after restore: expected plain sha256 {:?}, source lists {:?}, restored {:?}", expected_att.len(), expected_att, src_att.keys().collect::<Vec<_>>(), dst_att)}));
                }
                info.insert("attachments".into(), json!(src_att.len()));
            }
        }
        // trusted devices: not named by C18, reported
        if let Ok(d) = device_keys(&dst.account).await {
            info.insert("trusted_devices".into(), json!(format!("{} -> {}{}", src_devices.len(), d.len(), if d == src_devices { "" } else { " (set differs)" })));
        }
        // event-log commit roots: reported, not required
        if let Ok(s) = dst.account.sync_status().await {
            let dv = status_view(&s);
            let d = status_diff(&src_status, &dv);
            let lens: Vec<String> = d
                .iter()
                .filter(|k| *k != "folder")
                .map(|k| format!("{}:len {} -> {}", k, src_status[k.as_str()]["len"], dv[k.as_str()]["len"]))
                .collect();
            info.insert("logs_with_different_root_or_length".into(), json!(d));
            info.insert("log_length_changes".into(), json!(lens));
        }
        dst.close().await;
        Ok(json!({"ops": nops, "digest": digest, "transitions": nops + 3, "complete": true}))
    }
    .await;
    let mut v = match res {
        Ok(v) => v,
        Err(e) => json!({"error": format!("{:#}", e)}),
    };
    v["fails"] = json!(fails);
    v["info"] = Value::Object(info);
    v
}

// ------------------------------------------------------ hostile archives

type Entries = Vec<(String, Vec<u8>)>;

async fn read_zip(path: &Path) -> Result<Entries> {
    use async_zip::tokio::read::seek::ZipFileReader;
    let f = tokio::io::BufReader::new(tokio::fs::File::open(path).await?);
    let mut z = ZipFileReader::with_tokio(f).await.map_err(|e| anyhow!("zip: {}", e))?;
    let n = z.file().entries().len();
    let mut out = vec![];
    for i in 0..n {
        let name = z.file().entries()[i].filename().as_str().map_err(|e| anyhow!("zip name: {}", e))?.to_string();
        let mut r = z.reader_with_entry(i).await.map_err(|e| anyhow!("zip: {}", e))?;
        let mut buf = vec![];
        r.read_to_end_checked(&mut buf).await.map_err(|e| anyhow!("zip: {}", e))?;
        out.push((name, buf));
    }
    Ok(out)
}

async fn write_zip(path: &Path, entries: &Entries) -> Result<()> {
    use async_zip::{tokio::write::ZipFileWriter, Compression, ZipEntryBuilder};
    let mut buf: Vec<u8> = vec![];
    {
        let mut w = ZipFileWriter::with_tokio(std::io::Cursor::new(&mut buf));
        for (name, data) in entries {
            let e = ZipEntryBuilder::new(name.clone().into(), Compression::Deflate);
            w.write_entry_whole(e, data).await.map_err(|e| anyhow!("zip write {}: {}", name.escape_default(), e))?;
        }
        w.close().await.map_err(|e| anyhow!("zip close: {}", e))?;
    }
    std::fs::write(path, buf)?;
    Ok(())
}

const MANIFEST: &str = "sos-manifest.json";

/// Role of an entry, from its name.
fn entry_kind(name: &str) -> &'static str {
    if name == MANIFEST {
        return "manifest";
    }
    if name == "accounts.db" {
        return "database";
    }
    if name.starts_with("files/") || name.starts_with("blobs/") {
        return "blob";
    }
    match name {
        "device.vault" => return "device_vault",
        "device.events" => return "device_events",
        "account.events" => return "account_events",
        "files.events" => return "file_events",
        "preferences.json" => return "preferences",
        "servers.json" => return "remotes",
        _ => {}
    }
    if let Some(stem) = name.strip_suffix(".vault") {
        if stem.parse::<AccountId>().is_ok() {
            return "identity_vault";
        }
        if stem.parse::<VaultId>().is_ok() {
            return "folder_vault";
        }
    }
    "other"
}

/// Does the manifest carry a checksum for an entry of this role?
fn checksummed(kind: &str) -> bool {
    !matches!(kind, "blob" | "manifest" | "other")
}

#[derive(Clone, Debug, Serialize, Deserialize, PartialEq)]
enum Mutation {
    ContentByte { entry: usize, offset: usize },
    /// JSON pointer of the checksum string in the manifest
    ChecksumChar { field: String, pos: usize },
    Remove { entry: usize },
    Duplicate { entry: usize, first: bool, mutated: bool },
    Rename { entry: usize, name: String, template: String },
    ManifestAccountId { variant: String },
    ManifestVersion { variant: String },
}

#[derive(Clone, Copy, Debug, PartialEq, Eq, Serialize, Deserialize)]
enum Expect {
    /// manifest checksums do not match the entries: Err, no account
    MustReject,
    /// Err or Ok
    Any,
    /// Err, or Ok with an account equal to the source
    RejectOrEqualSource,
}

struct Case {
    m: Mutation,
    expect: Expect,
    kind: &'static str,
    entry_kind: &'static str,
}

fn byte_offsets(len: usize, tier: Tier) -> Vec<usize> {
    let full = tier.pick(512, 4096);
    let stride = tier.pick(64, 16);
    if len <= full {
        return (0..len).collect();
    }
    let mut s: BTreeSet<usize> = (0..64).collect();
    s.extend(len - 64..len);
    s.extend((0..len).step_by(stride));
    s.into_iter().collect()
}

/// All JSON pointers of checksum strings in a manifest.
fn checksum_fields(manifest: &Value, v3: bool) -> Vec<String> {
    let mut out = vec!["/checksum".to_string()];
    if v3 {
        return out;
    }
    if let Some(m) = manifest["vaults"].as_object() {
        let mut ks: Vec<&String> = m.keys().collect();
        ks.sort();
        for k in ks {
            out.push(format!("/vaults/{}", k));
        }
    }
    for k in ["account", "files", "preferences", "remotes"] {
        if manifest.get(k).map(|v| v.is_string()).unwrap_or(false) {
            out.push(format!("/{}", k));
        }
    }
    if manifest["devices"].is_array() {
        out.push("/devices/0".into());
        out.push("/devices/1".into());
    }
    out
}

fn field_kind(field: &str) -> &'static str {
    if field == "/checksum" {
        "identity_or_database"
    } else if field.starts_with("/vaults/") {
        "folder_vault"
    } else if field == "/devices/0" {
        "device_vault"
    } else if field == "/devices/1" {
        "device_events"
    } else if field == "/account" {
        "account_events"
    } else if field == "/files" {
        "file_events"
    } else if field == "/preferences" {
        "preferences"
    } else {
        "remotes"
    }
}

fn escaping_names(entries: &Entries, abs_escape: &Path, v3: bool, tier: Tier) -> Vec<(String, String)> {
    // directory of a blob entry (valid ids), so that the importer's
    // "is this a blob path" filters are passed
    let blobdir = entries
        .iter()
        .find(|(n, _)| entry_kind(n) == "blob")
        .and_then(|(n, _)| n.rsplit_once('/').map(|x| x.0.to_string()))
        .unwrap_or_else(|| {
            if v3 {
                format!("blobs/{}/{}/{}", AccountId::random(), VaultId::new_v4(), SecretId::new_v4())
            } else {
                format!("files/{}/{}", VaultId::new_v4(), SecretId::new_v4())
            }
        });
    let blobname = entries
        .iter()
        .find(|(n, _)| entry_kind(n) == "blob")
        .and_then(|(n, _)| n.rsplit_once('/').map(|x| x.1.to_string()))
        .unwrap_or_else(|| "ab".repeat(32));
    let top = if v3 { "blobs" } else { "files" };
    let abs = abs_escape.to_string_lossy().to_string();
    let mut v: Vec<(String, String)> = vec![
        ("../x".into(), "../x".into()),
        ("{top}/../../x".into(), format!("{}/../../x", top)),
        ("/abs/x".into(), "/abs/x".into()),
        ("C:\\x".into(), "C:\\x".into()),
        ("{top}\\..\\..\\x".into(), format!("{}\\..\\..\\x", top)),
        ("name-with-NUL".into(), "nul\0name.vault".into()),
        ("300-chars".into(), "L".repeat(300)),
        ("{blobdir}/(../ x8)escaped".into(), format!("{}/../../../../../../../../escaped", blobdir)),
        ("{blobdir}\\(..\\ x8)escaped".into(), format!("{}\\..\\..\\..\\..\\..\\..\\..\\..\\escaped", blobdir)),
        ("{absolute path beside the target}".into(), abs.clone()),
        ("{blobdir}/{absolute path}".into(), format!("{}/{}", blobdir, abs)),
        // a well-formed blob path written with backslashes
        ("{blobdir}\\blob (backslash separators)".into(), format!("{}/{}", blobdir, blobname).replace('/', "\\")),
    ];
    if tier == Tier::Thorough {
        for ups in [1usize, 3, 4, 5, 6] {
            v.push((format!("{{blobdir}}/(../ x{})escaped", ups), format!("{}/{}escaped", blobdir, "../".repeat(ups))));
        }
        v.push(("{blobdir}/..%2f".into(), format!("{}/..%2f..%2f..%2f..%2f..%2fescaped", blobdir)));
        v.push(("{blobdir}/....//".into(), format!("{}/....//....//....//....//....//escaped", blobdir)));
        v.push(("{blobdir}-file-is-dir".into(), format!("{}/", blobdir)));
    }
    v
}

fn other_hex(c: char) -> char {
    let d = c.to_digit(16).unwrap_or(0);
    std::char::from_digit((d + 1) % 16, 16).unwrap()
}

/// The complete, deterministic list of single-entry mutations.
fn enumerate_cases(entries: &Entries, v3: bool, tier: Tier, abs_escape: &Path) -> Result<Vec<Case>> {
    let mut out = vec![];
    let mi = entries.iter().position(|(n, _)| n == MANIFEST).ok_or_else(|| anyhow!("seed has no manifest"))?;
    let manifest: Value = serde_json::from_slice(&entries[mi].1)?;
    // 1. content bytes
    for (i, (name, data)) in entries.iter().enumerate() {
        let k = entry_kind(name);
        for off in byte_offsets(data.len(), tier) {
            out.push(Case {
                m: Mutation::ContentByte { entry: i, offset: off },
                expect: if checksummed(k) { Expect::MustReject } else { Expect::Any },
                kind: "content_byte_flip",
                entry_kind: k,
            });
        }
    }
    // 2. checksum characters
    for field in checksum_fields(&manifest, v3) {
        let s = manifest.pointer(&field).and_then(|v| v.as_str()).ok_or_else(|| anyhow!("manifest field {} is not a string", field))?;
        let n = s.len();
        let positions: Vec<usize> = match tier {
            Tier::Quick => vec![0, n / 2, n - 1],
            Tier::Thorough => (0..n).collect(),
        };
        for pos in positions {
            out.push(Case { m: Mutation::ChecksumChar { field: field.clone(), pos }, expect: Expect::MustReject, kind: "checksum_char", entry_kind: field_kind(&field) });
        }
    }
    // 3. removal, 4. duplication
    for (i, (name, _)) in entries.iter().enumerate() {
        let k = entry_kind(name);
        out.push(Case {
            m: Mutation::Remove { entry: i },
            expect: if checksummed(k) || k == "manifest" { Expect::MustReject } else { Expect::Any },
            kind: "missing_entry",
            entry_kind: k,
        });
        for (first, mutated) in [(false, false), (true, false), (false, true), (true, true)] {
            out.push(Case {
                m: Mutation::Duplicate { entry: i, first, mutated },
                expect: if mutated && checksummed(k) { Expect::RejectOrEqualSource } else { Expect::Any },
                kind: "duplicate_entry",
                entry_kind: k,
            });
        }
    }
    // 5. rename to escaping names
    let names = escaping_names(entries, abs_escape, v3, tier);
    for (i, (name, _)) in entries.iter().enumerate() {
        let k = entry_kind(name);
        for (template, new) in &names {
            out.push(Case {
                m: Mutation::Rename { entry: i, name: new.clone(), template: template.clone() },
                expect: if checksummed(k) || k == "manifest" { Expect::MustReject } else { Expect::Any },
                kind: "escaping_name",
                entry_kind: k,
            });
        }
    }
    // 6. manifest identity / version
    if !v3 {
        for variant in ["other_valid_id", "not_an_id", "empty", "absent"] {
            out.push(Case { m: Mutation::ManifestAccountId { variant: variant.into() }, expect: Expect::Any, kind: "manifest_account_id", entry_kind: "manifest" });
        }
    }
    for variant in ["1", "2", "3", "0", "99", "string", "absent"] {
        out.push(Case { m: Mutation::ManifestVersion { variant: variant.into() }, expect: Expect::Any, kind: "manifest_version", entry_kind: "manifest" });
    }
    Ok(out)
}

fn mutate(entries: &Entries, m: &Mutation) -> Result<Entries> {
    let mut e = entries.clone();
    let mi = e.iter().position(|(n, _)| n == MANIFEST).ok_or_else(|| anyhow!("no manifest"))?;
    let edit_manifest = |e: &mut Entries, f: &dyn Fn(&mut Value) -> Result<()>| -> Result<()> {
        let mut v: Value = serde_json::from_slice(&e[mi].1)?;
        f(&mut v)?;
        e[mi].1 = serde_json::to_vec_pretty(&v)?;
        Ok(())
    };
    match m {
        Mutation::ContentByte { entry, offset } => {
            e[*entry].1[*offset] ^= 0xff;
        }
        Mutation::ChecksumChar { field, pos } => {
            edit_manifest(&mut e, &|v| {
                let s = v.pointer(field).and_then(|x| x.as_str()).ok_or_else(|| anyhow!("no field"))?.to_string();
                let mut cs: Vec<char> = s.chars().collect();
                cs[*pos] = other_hex(cs[*pos]);
                *v.pointer_mut(field).unwrap() = Value::String(cs.into_iter().collect());
                Ok(())
            })?;
        }
        Mutation::Remove { entry } => {
            e.remove(*entry);
        }
        Mutation::Duplicate { entry, first, mutated } => {
            let (name, mut data) = e[*entry].clone();
            if *mutated {
                if data.is_empty() {
                    data.push(0x41);
                } else {
                    let mid = data.len() / 2;
                    data[mid] ^= 0xff;
                }
            }
            if *first {
                e.insert(0, (name, data));
            } else {
                e.push((name, data));
            }
        }
        Mutation::Rename { entry, name, .. } => {
            e[*entry].0 = name.clone();
        }
        Mutation::ManifestAccountId { variant } => {
            edit_manifest(&mut e, &|v| {
                let o = v.as_object_mut().ok_or_else(|| anyhow!("manifest not an object"))?;
                match variant.as_str() {
                    "other_valid_id" => {
                        o.insert("address".into(), json!(AccountId::random().to_string()));
                    }
                    "not_an_id" => {
                        o.insert("address".into(), json!("../../escaped"));
                    }
                    "empty" => {
                        o.insert("address".into(), json!(""));
                    }
                    _ => {
                        o.remove("address");
                    }
                }
                Ok(())
            })?;
        }
        Mutation::ManifestVersion { variant } => {
            edit_manifest(&mut e, &|v| {
                let o = v.as_object_mut().ok_or_else(|| anyhow!("manifest not an object"))?;
                match variant.as_str() {
                    "absent" => {
                        o.remove("version");
                    }
                    "string" => {
                        o.insert("version".into(), json!("2"));
                    }
                    n => {
                        o.insert("version".into(), json!(n.parse::<u64>().unwrap()));
                    }
                }
                Ok(())
            })?;
        }
    }
    Ok(e)
}

struct Seed {
    pair: Pair,
    entries: Entries,
    account_id: AccountId,
    view: AccountView,
    password_idx: u8,
    shape: usize,
}

async fn load_seed(dir: &Path, pair: Pair) -> Result<Seed> {
    let entries = read_zip(&dir.join("archive.zip")).await?;
    let meta: Value = serde_json::from_slice(&std::fs::read(dir.join("meta.json"))?)?;
    Ok(Seed {
        pair,
        entries,
        account_id: meta["account_id"].as_str().unwrap_or("").parse()?,
        view: serde_json::from_value(meta["view"].clone())?,
        password_idx: meta["password_idx"].as_u64().unwrap_or(0) as u8,
        shape: meta["shape"].as_u64().unwrap_or(0) as usize,
    })
}

fn describe(seed: &Seed, c: &Case) -> Value {
    let entry_name = |i: &usize| seed.entries.get(*i).map(|e| entry_kind(&e.0)).unwrap_or("?");
    match &c.m {
        Mutation::ContentByte { entry, offset } => json!({"mutation": "flip content byte", "entry": entry_name(entry), "entry_len": seed.entries[*entry].1.len(), "offset": offset}),
        Mutation::ChecksumChar { field, pos } => json!({"mutation": "change checksum hex digit", "manifest_field": field_kind(field), "position": pos}),
        Mutation::Remove { entry } => json!({"mutation": "remove entry", "entry": entry_name(entry)}),
        Mutation::Duplicate { entry, first, mutated } => json!({"mutation": "duplicate entry", "entry": entry_name(entry), "copy_placed": if *first { "first" } else { "last" }, "copy_content": if *mutated { "one byte differs" } else { "identical" }}),
        Mutation::Rename { entry, template, .. } => json!({"mutation": "rename entry", "entry": entry_name(entry), "new_name": template}),
        Mutation::ManifestAccountId { variant } => json!({"mutation": "manifest account id", "variant": variant}),
        Mutation::ManifestVersion { variant } => json!({"mutation": "manifest version", "variant": variant}),
    }
}

/// Run one hostile archive. Returns (outcome class, failures, info flags).
async fn run_case(seed: &Seed, c: &Case, wd: &Path) -> Result<(String, Vec<(String, String)>, Vec<&'static str>)> {
    let tag = seed.pair.tag();
    let backend = seed.pair.dst();
    let case_dir = wd.join("case");
    let _ = std::fs::remove_dir_all(&case_dir);
    let watched = case_dir.join("watched");
    let parent = watched.join("a").join("b").join("parent");
    let target_dir = parent.join("target");
    std::fs::create_dir_all(&target_dir)?;
    std::fs::write(parent.join("sibling.txt"), b"sibling of the import target")?;
    let entries = mutate(&seed.entries, &c.m)?;
    let archive = case_dir.join("in.zip");
    write_zip(&archive, &entries).await?;
    let target = target_for(&target_dir, backend).await?;
    let before_accounts = target.list_accounts().await.map(|a| a.len()).unwrap_or(0);
    if before_accounts != 0 {
        return Err(anyhow!("fresh target lists accounts"));
    }
    let abs_existed = Path::new("/abs").exists();
    let before = fsutil::tree_digest(&watched);
    std::env::set_current_dir(&parent)?;
    let outcome = guarded_import(&archive, &target, false).await;
    std::env::set_current_dir(wd)?;
    let after = fsutil::tree_digest(&watched);
    let after_accounts = target.list_accounts().await;
    close_target(&target).await;
    let mut fails: Vec<(String, String)> = vec![];
    let mut info: Vec<&'static str> = vec![];
    let desc = describe(seed, c);
    // no write outside the target, for every archive
    let mut outside = outside_changes(&before, &after, &["a/b/parent/target"]);
    if !abs_existed && Path::new("/abs").exists() {
        outside.push("/abs".into());
        let _ = std::fs::remove_dir_all("/abs");
    }
    if !outside.is_empty() {
        fails.push((
            format!("hostile:{}:wrote_outside_target:{}:{}", c.kind, c.entry_kind, tag),
            format!("importing an archive ({}) changed paths outside the import target: {:?}", desc, outside.iter().take(4).collect::<Vec<_>>()),
        ));
    }
    let listed = match &after_accounts {
        Ok(a) => a.len(),
        Err(_) => 0,
    };
    let class: String;
    match outcome {
        Outcome::Panicked(p) => {
            class = "panic".into();
            fails.push((
                format!("hostile:{}:panic:{}:{}", c.kind, panic_sig(&p), tag),
                format!("importing an archive ({}) panicked: {}; afterwards the target lists {} account(s)", desc, p.replace("/repo/", ""), listed),
            ));
            if listed > 0 && c.expect == Expect::MustReject {
                fails.push((format!("hostile:{}:panic_and_account_created:{}:{}", c.kind, c.entry_kind, tag), format!("after the panic the target lists {} account(s) ({})", listed, desc)));
            }
        }
        Outcome::Rejected(e) => {
            class = "rejected".into();
            if listed > 0 {
                if c.expect == Expect::MustReject {
                    fails.push((
                        format!("hostile:{}:rejected_but_account_created:{}:{}", c.kind, c.entry_kind, tag),
                        format!("the import was refused ({}) but the target now lists {} account(s) ({})", e, listed, desc),
                    ));
                } else {
                    info.push("rejected_with_account_left_behind");
                }
            }
            let touched = before != after;
            if touched {
                info.push("rejected_but_target_modified");
            }
        }
        Outcome::Accepted(ids) => {
            class = "accepted".into();
            match c.expect {
                Expect::MustReject => {
                    fails.push((
                        format!("hostile:{}:accepted{}:{}:{}", c.kind, if listed > 0 { "_and_account_created" } else { "" }, c.entry_kind, tag),
                        format!("an archive whose manifest checksums do not match its entries ({}) was accepted; import returned {} identities, the target lists {} account(s)", desc, ids.len(), listed),
                    ));
                }
                Expect::RejectOrEqualSource => {
                    // the copy that does not match the checksum must not have been used
                    let r: Result<Vec<(String, String)>> = async {
                        let mut d = Dev::open(&target_dir, backend, seed.account_id, pw(seed.password_idx)).await?;
                        let mut v = account_view(&mut d.account, true).await?;
                        norm_view(&mut v);
                        d.close().await;
                        Ok(view_diff(&seed.view, &v))
                    }
                    .await;
                    match r {
                        Ok(d) if d.is_empty() => info.push("accepted_duplicate_and_matching_copy_used"),
                        Ok(d) => fails.push((
                            format!("hostile:{}:accepted_mismatching_copy_used:{}:{}", c.kind, c.entry_kind, tag),
                            format!("an archive with two entries of the same name, one not matching the manifest checksum ({}), was accepted and the restored account differs: {:?}", desc, d.first()),
                        )),
                        Err(e) => fails.push((
                            format!("hostile:{}:accepted_unusable_account:{}:{}", c.kind, c.entry_kind, tag),
                            format!("an archive with two entries of the same name, one not matching the manifest checksum ({}), was accepted but the account cannot be opened: {}", desc, e),
                        )),
                    }
                }
                Expect::Any => {
                    if c.entry_kind == "blob" && matches!(c.m, Mutation::ContentByte { .. }) {
                        info.push("accepted_modified_blob_not_covered_by_manifest");
                    }
                }
            }
        }
    }
    Ok((class, fails, info))
}

#[derive(Clone, Debug, Serialize, Deserialize)]
struct HItem {
    pair: Pair,
    seed: usize,
    chunk: usize,
    nchunks: usize,
}

async fn run_hostile_chunk(shared: &Path, h: &HItem, tier: Tier, wd: &Path, only: Option<&(String, String)>) -> Value {
    let res: Result<Value> = async {
        let sd = shared.join(format!("seed-{}-{}", h.pair.tag(), h.seed));
        let seed = load_seed(&sd, h.pair).await?;
        let v3 = h.pair != Pair::FsV2;
        let abs_escape = wd.join("case").join("watched").join("a").join("escaped-absolute");
        let cases = enumerate_cases(&seed.entries, v3, tier, &abs_escape)?;
        let mut n = 0u64;
        let mut by_kind: BTreeMap<String, u64> = BTreeMap::new();
        let mut classes: BTreeMap<String, u64> = BTreeMap::new();
        let mut must_reject = 0u64;
        let mut infos: BTreeMap<String, u64> = BTreeMap::new();
        let mut fails: BTreeMap<String, (u64, String, Value)> = BTreeMap::new();
        let mut samples = vec![];
        let mut errors = vec![];
        for (i, c) in cases.iter().enumerate() {
            if i % h.nchunks != h.chunk {
                continue;
            }
            if let Some((kind, ek)) = only {
                if c.kind != kind || c.entry_kind != ek {
                    continue;
                }
            }
            n += 1;
            *by_kind.entry(c.kind.to_string()).or_default() += 1;
            if c.expect == Expect::MustReject {
                must_reject += 1;
            }
            match run_case(&seed, c, wd).await {
                Err(e) => errors.push(format!("case {} ({:?}): {:#}", i, describe(&seed, c), e)),
                Ok((class, fs, inf)) => {
                    *classes.entry(format!("{}:{}", c.kind, class)).or_default() += 1;
                    for k in inf {
                        *infos.entry(format!("{}:{}", k, h.pair.tag())).or_default() += 1;
                    }
                    if samples.len() < 2 && (i / h.nchunks) % 97 == 0 {
                        samples.push(json!({"archive": h.pair.tag(), "case": describe(&seed, c), "expect": c.expect, "outcome": class}));
                    }
                    for (sig, what) in fs {
                        let e = fails.entry(sig).or_insert((0, what, json!({"engine": "archx", "kind": "hostile", "pair": h.pair, "seed_shape": seed.shape, "mutation_kind": c.kind, "entry_kind": c.entry_kind, "case": describe(&seed, c)})));
                        e.0 += 1;
                    }
                }
            }
        }
        let total = cases.len();
        Ok(json!({
            "n": n, "total": total, "by_kind": by_kind, "classes": classes, "must_reject": must_reject, "infos": infos,
            "fails": fails.into_iter().map(|(s, (c, w, wit))| json!({"sig": s, "count": c, "what": w, "witness": wit})).collect::<Vec<_>>(),
            "samples": samples, "errors": errors,
            "entries": seed.entries.iter().map(|(n, d)| json!({"kind": entry_kind(n), "len": d.len()})).collect::<Vec<_>>(),
        }))
    }
    .await;
    match res {
        Ok(v) => v,
        Err(e) => json!({"error": format!("{:#}", e)}),
    }
}

// ------------------------------------------------------------------ main

fn rt() -> tokio::runtime::Runtime {
    tokio::runtime::Builder::new_multi_thread().worker_threads(2).enable_all().build().unwrap()
}

fn hostile_items(tier: Tier, nseeds: usize) -> Vec<HItem> {
    let mut v = vec![];
    for seed in 0..nseeds {
        for pair in [Pair::FsV2, Pair::DbV3] {
            let nchunks = match (tier, pair) {
                (Tier::Quick, Pair::FsV2) => 12,
                (Tier::Quick, _) => 36,
                (Tier::Thorough, Pair::FsV2) => 48,
                (Tier::Thorough, _) => 160,
            };
            for chunk in 0..nchunks {
                v.push(HItem { pair, seed, chunk, nchunks });
            }
        }
    }
    v
}

fn main() {
    let args = Args::parse();
    let tier = args.tier;
    let shapes = shapes(tier);
    let its = items(tier, &shapes);
    let nseeds = its.iter().filter_map(|i| i.seed).max().map(|m| m + 1).unwrap_or(0);
    let hits = hostile_items(tier, nseeds);
    let marker = format!("m{}", args.seed);
    install_panic_hook();

    if let Some(stage) = pool::worker_stage() {
        let wd = fsutil::WorkDir::new("archx-w");
        let rt = rt();
        let shared = std::env::var("ARCHX_SHARED").ok().map(PathBuf::from);
        let _ = std::env::set_current_dir(wd.path());
        match stage.as_str() {
            "roundtrip" => pool::worker_loop(|idx| rt.block_on(run_roundtrip(&shapes, &its[idx], &wd.path().join("rt"), &marker, shared.as_deref(), tier))),
            _ => pool::worker_loop(|idx| rt.block_on(run_hostile_chunk(shared.as_deref().expect("shared"), &hits[idx], tier, wd.path(), None))),
        }
    }

    if let Some(path) = &args.replay {
        std::process::exit(replay(path, &shapes, tier, &marker));
    }

    let mut run = Run::new("C18", "model_checking", &args);
    let shared = fsutil::WorkDir::new("archx-shared");
    let mut opts = PoolOpts::default();
    opts.item_timeout = std::time::Duration::from_secs(tier.pick(120, 600));
    opts.env = vec![("ARCHX_SHARED".into(), shared.path().to_string_lossy().to_string())];

    // stage 1: round trips
    let t_stage = std::time::Instant::now();
    let res = pool::run_stage("roundtrip", its.len(), &opts);
    let stage1_s = t_stage.elapsed().as_secs_f64();
    eprintln!("archx: {} round trips in {:.1}s", its.len(), stage1_s);
    let mut samples = vec![];
    let mut digests: BTreeSet<String> = BTreeSet::new();
    let mut transitions = 0u64;
    let mut roundtrips = 0u64;
    let mut complete = 0u64;
    let mut with_attachments = 0u64;
    let mut log_info: BTreeMap<String, u64> = BTreeMap::new();
    let mut order_changed = 0u64;
    let mut log_len_info: BTreeMap<String, u64> = BTreeMap::new();
    for (i, r) in res.into_iter().enumerate() {
        let it = &its[i];
        match r {
            pool::ItemResult::Crashed(w) => run.machinery(format!("roundtrip {} {:?}: {}", shapes[it.shape].name, it.pair, w)),
            pool::ItemResult::Done(v) => {
                if let Some(e) = v.get("error").and_then(|e| e.as_str()) {
                    run.machinery(format!("roundtrip {} {:?}: {}", shapes[it.shape].name, it.pair, e));
                    continue;
                }
                roundtrips += 1;
                transitions += v["transitions"].as_u64().unwrap_or(0);
                if v["complete"].as_bool() == Some(true) {
                    complete += 1;
                }
                if let Some(d) = v["digest"].as_str() {
                    digests.insert(format!("{}:{}", d, it.pair.tag()));
                }
                if v["info"]["attachments"].as_u64().unwrap_or(0) > 0 {
                    with_attachments += 1;
                }
                if v["info"]["listing_order_preserved"].as_bool() == Some(false) {
                    order_changed += 1;
                }
                if let Some(t) = v["info"]["trusted_devices"].as_str() {
                    *log_len_info.entry(format!("trusted devices {} ({})", t, it.pair.tag())).or_default() += 1;
                }
                if let Some(a) = v["info"]["log_length_changes"].as_array() {
                    for l in a {
                        *log_len_info.entry(format!("{} ({})", l.as_str().unwrap_or("?"), it.pair.tag())).or_default() += 1;
                    }
                }
                if let Some(a) = v["info"]["logs_with_different_root_or_length"].as_array() {
                    for l in a {
                        *log_info.entry(format!("{}:{}", l.as_str().unwrap_or("?"), it.pair.tag())).or_default() += 1;
                    }
                }
                for f in v["fails"].as_array().cloned().unwrap_or_default() {
                    run.fail(
                        f["sig"].as_str().unwrap(),
                        f["what"].as_str().unwrap(),
                        json!({"engine": "archx", "kind": "roundtrip", "shape": shapes[it.shape], "pair": it.pair}),
                    );
                }
                if i % 7 == 0 {
                    push_sample(&mut samples, json!({"roundtrip": {"history": shapes[it.shape], "pair": it.pair.tag(), "failed_clauses": v["fails"].as_array().map(|a| a.len())}}), 4);
                }
            }
        }
    }

    // stage 2: hostile archives
    let mut hostile_total = 0u64;
    let mut by_kind: BTreeMap<String, u64> = BTreeMap::new();
    let mut classes: BTreeMap<String, u64> = BTreeMap::new();
    let mut must_reject = 0u64;
    let mut infos: BTreeMap<String, u64> = BTreeMap::new();
    let mut seed_entries: BTreeMap<String, Value> = BTreeMap::new();
    let seeds_present = (0..nseeds).all(|n| [Pair::FsV2, Pair::DbV3].iter().all(|p| shared.path().join(format!("seed-{}-{}", p.tag(), n)).join("archive.zip").exists()));
    if !seeds_present {
        run.machinery("hostile stage skipped: a seed archive is missing (export of the seed account failed)");
    } else {
        let t_stage = std::time::Instant::now();
        let res = pool::run_stage("hostile", hits.len(), &opts);
        eprintln!("archx: {} hostile chunks in {:.1}s", hits.len(), t_stage.elapsed().as_secs_f64());
        for (i, r) in res.into_iter().enumerate() {
            let h = &hits[i];
            match r {
                pool::ItemResult::Crashed(w) => run.machinery(format!("hostile chunk {:?}: {}", h, w)),
                pool::ItemResult::Done(v) => {
                    if let Some(e) = v.get("error").and_then(|e| e.as_str()) {
                        run.machinery(format!("hostile chunk {:?}: {}", h, e));
                        continue;
                    }
                    for e in v["errors"].as_array().cloned().unwrap_or_default() {
                        run.machinery(format!("hostile {:?}: {}", h.pair, e.as_str().unwrap_or("?")));
                    }
                    hostile_total += v["n"].as_u64().unwrap_or(0);
                    must_reject += v["must_reject"].as_u64().unwrap_or(0);
                    for (k, n) in v["by_kind"].as_object().cloned().unwrap_or_default() {
                        *by_kind.entry(format!("{}:{}", k, h.pair.tag())).or_default() += n.as_u64().unwrap_or(0);
                    }
                    for (k, n) in v["classes"].as_object().cloned().unwrap_or_default() {
                        *classes.entry(format!("{}:{}", k, h.pair.tag())).or_default() += n.as_u64().unwrap_or(0);
                    }
                    for (k, n) in v["infos"].as_object().cloned().unwrap_or_default() {
                        *infos.entry(k).or_default() += n.as_u64().unwrap_or(0);
                    }
                    seed_entries.entry(format!("{}#{}", h.pair.tag(), h.seed)).or_insert(v["entries"].clone());
                    for f in v["fails"].as_array().cloned().unwrap_or_default() {
                        run.fail_n(f["sig"].as_str().unwrap(), f["what"].as_str().unwrap(), f["witness"].clone(), f["count"].as_u64().unwrap_or(1));
                    }
                    for s in v["samples"].as_array().cloned().unwrap_or_default() {
                        push_sample(&mut samples, json!({"hostile": s}), 10);
                    }
                }
            }
        }
        let accepted: u64 = classes.iter().filter(|(k, _)| k.contains(":accepted:")).map(|x| *x.1).sum();
        let rejected: u64 = classes.iter().filter(|(k, _)| k.contains(":rejected:")).map(|x| *x.1).sum();
        if accepted == 0 || rejected == 0 || must_reject == 0 {
            run.machinery(format!("vacuous hostile stage: accepted={} rejected={} must_reject={}", accepted, rejected, must_reject));
        }
    }
    if with_attachments == 0 && run.failures.is_empty() {
        run.machinery("vacuous: no round trip carried an attachment");
    }
    if digests.len() < 6 {
        run.machinery(format!("only {} distinct accounts", digests.len()));
    }

    run.assume("the zip container itself (CRC, central directory) is always valid: mutated archives are rebuilt with async_zip, so only the manifest checksums and the importer's own checks stand between a changed entry and the target");
    run.assume("a content-byte mutation of an entry the manifest carries no checksum for (external file blobs in both formats) and an archive with a missing blob are allowed to be accepted; they are counted, not failed");
    run.assume("event-log commit roots after restore are reported (logs_with_different_root_or_length), not required: the v2 importer rebuilds identity and folder logs from the vaults by design");

    let mut cov = Map::new();
    cov.insert("states".into(), json!(digests.len() as u64 + hostile_total));
    cov.insert("transitions".into(), json!(transitions + hostile_total));
    cov.insert("traces_validated_against_impl".into(), json!(roundtrips + hostile_total));
    cov.insert("samples".into(), json!(samples));
    cov.insert("account_histories".into(), json!(shapes.len()));
    cov.insert("distinct_accounts_x_pairs".into(), json!(digests.len()));
    cov.insert("roundtrips_run".into(), json!(roundtrips));
    cov.insert("roundtrips_reaching_the_final_comparison".into(), json!(complete));
    cov.insert("roundtrips_with_attachments".into(), json!(with_attachments));
    cov.insert("roundtrips_where_listing_order_changed".into(), json!(order_changed));
    cov.insert("logs_with_different_root_or_length_after_restore".into(), json!(log_info));
    cov.insert("log_length_and_device_changes_after_restore".into(), json!(log_len_info));
    cov.insert("stage1_wall_s".into(), json!(stage1_s));
    cov.insert("hostile_archives".into(), json!(hostile_total));
    cov.insert("hostile_archives_with_checksum_mismatch".into(), json!(must_reject));
    cov.insert("hostile_mutations_by_kind".into(), json!(by_kind));
    cov.insert("hostile_outcomes".into(), json!(classes));
    cov.insert("hostile_informational".into(), json!(infos));
    cov.insert("seed_archive_entries".into(), json!(seed_entries));
    cov.insert("evaluations".into(), json!(roundtrips + hostile_total));
    cov.insert("distinct_nontrivial".into(), json!(digests.len() as u64 + hostile_total));
    cov.insert("exhaustive".into(), json!(true));
    cov.insert(
        "rule".into(),
        json!(format!(
            "accounts: 3 special histories + base history (flagged+described folder, 3 secrets, rename, deleted secret, external file) over {} kind sets + base ++ every enabled suffix of length <= {} over {} operations, each x {{fs->v2->fs, sqlite->v3->sqlite}} (+ fs->v2->upgrade->v3->sqlite for a subset); hostile: for {} seed archive(s) per format every single-entry mutation: content byte ^0xff (every offset for entries <= {} B, else first/last 64 + stride {}), each manifest checksum x {} hex positions, each entry removed, each entry duplicated (first/last x identical/changed), each entry renamed to each of the escaping names, manifest account id x4 (v2), manifest version x7. distinct = distinct (ids-free account digest, pair) + hostile archives (all distinct by construction)",
            tier.pick(2, 5), tier.pick(1, 2), suffix_alphabet(tier).len(), nseeds, tier.pick(512, 4096), tier.pick(64, 16), tier.pick("3", "all")
        )),
    );
    std::process::exit(run.finish(cov));
}

fn replay(path: &Path, shapes: &[Shape], tier: Tier, marker: &str) -> i32 {
    let v: Value = serde_json::from_slice(&std::fs::read(path).expect("read replay")).expect("json");
    let want = v["signature"].as_str().unwrap_or("").to_string();
    let w = &v["witness"];
    let rt = rt();
    let mut obs: Vec<Vec<String>> = vec![];
    for round in 0..2 {
        let wd = fsutil::WorkDir::new(&format!("archx-r{}", round));
        let _ = std::env::set_current_dir(wd.path());
        let mut sigs: Vec<String> = vec![];
        if w["kind"] == "roundtrip" {
            let shape: Shape = serde_json::from_value(w["shape"].clone()).expect("shape");
            let pair: Pair = serde_json::from_value(w["pair"].clone()).expect("pair");
            let it = Item { shape: 0, pair, seed: None };
            let r = rt.block_on(run_roundtrip(&[shape], &it, &wd.path().join("rt"), marker, None, tier));
            println!("run {}: {}", round, r);
            sigs = r["fails"].as_array().map(|a| a.iter().map(|f| f["sig"].as_str().unwrap_or("").to_string()).collect()).unwrap_or_default();
        } else {
            let pair: Pair = serde_json::from_value(w["pair"].clone()).expect("pair");
            let si = w["seed_shape"].as_u64().unwrap_or(0) as usize;
            let src_pair = if pair == Pair::FsV2 { Pair::FsV2 } else { Pair::DbV3 };
            let it = Item { shape: si, pair: src_pair, seed: Some(0) };
            let shared = wd.path().join("shared");
            let r = rt.block_on(run_roundtrip(shapes, &it, &wd.path().join("rt"), marker, Some(&shared), tier));
            if r.get("error").is_some() {
                eprintln!("MACHINERY-ERROR cannot rebuild the seed: {}", r);
                return 2;
            }
            let only = (w["mutation_kind"].as_str().unwrap_or("").to_string(), w["entry_kind"].as_str().unwrap_or("").to_string());
            let h = HItem { pair: src_pair, seed: 0, chunk: 0, nchunks: 1 };
            let r = rt.block_on(run_hostile_chunk(&shared, &h, tier, wd.path(), Some(&only)));
            println!("run {}: n={} classes={} fails={}", round, r["n"], r["classes"], r["fails"].as_array().map(|a| a.len()).unwrap_or(0));
            sigs = r["fails"].as_array().map(|a| a.iter().map(|f| f["sig"].as_str().unwrap_or("").to_string()).collect()).unwrap_or(sigs);
        }
        sigs.sort();
        sigs.dedup();
        obs.push(sigs);
    }
    if obs[0] != obs[1] {
        eprintln!("MACHINERY-ERROR replay is not deterministic: {:?} vs {:?}", obs[0], obs[1]);
        return 2;
    }
    if obs[0].contains(&want) {
        println!("VIOLATION property=C18 replay={}", path.display());
        return 1;
    }
    println!("OK replay: signature {} not observed", want);
    0
}
