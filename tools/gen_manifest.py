#!/usr/bin/env python3
"""Regenerates /verif/MANIFEST.json from the table below (kept in one place so
that claimed checks / not_applicable stay consistent)."""
import json, os
HERE = os.path.dirname(os.path.dirname(os.path.abspath(__file__)))
ALL = ["C%02d" % i for i in range(1, 21)]

# property -> dict(engine, level, text, note, technique, design_ref)
CHECKS = {
 "C08": dict(engine="treex", level="exploration",
   text="Every ordered pair of leaf sequences over a 2- and 3-letter alphabet up to the stated length is built as two real CommitTrees; compare/contains on the head proof and verify_leaves for a single-leaf proof at every index are compared with the prefix relation on the raw sequences. Complete within the bound (no sampling), so any wrong answer on short logs (the shapes sync actually meets: duplicate tail events, unequal lengths) is found.",
   note="SHA-256 / rs_merkle collision freedom; nothing claimed beyond the length bound.",
   technique="bounded exhaustive enumeration of all input pairs against a reference (prefix) model, executed on the real CommitTree/CommitProof code",
   design_ref="DESIGN.md §5 C08"),
}
PENDING_REASON = "check not built yet at this commit (work in progress; see DESIGN.md §5 for the planned model-checking engine)"

def main():
    checks = []
    for pid in ALL:
        c = CHECKS.get(pid)
        if not c: continue
        checks.append({
            "property_id": pid,
            "quick_cmd": f"./check {pid} --tier quick",
            "thorough_cmd": f"./check {pid} --tier thorough",
            "evidence_file": f"/verif/evidence/{pid}.json",
            "replay_cmd_template": f"./check {pid} --replay {{path}}",
            "engine": c["engine"],
            "level_claimed": {"category": c["level"], "text": c["text"], "design_ref": c["design_ref"]},
            "level_note": c["note"],
            "technique": c["technique"],
        })
    engines = {}
    for pid, c in CHECKS.items():
        engines.setdefault(c["engine"], []).append(pid)
    m = {
        "version": 1,
        "setup_cmd": "./check setup",
        "hooks": {
            "guard": "--cfg sos_verif",
            "enable": "RUSTFLAGS=--cfg sos_verif (set in /verif/harness/.cargo/config.toml, applied to the harness build which compiles /repo/crates/* as path dependencies)",
            "baseline_off_cmd": "cd /repo && cargo nextest run --workspace --no-fail-fast --tool-config-file pb:/w/lib/nextest.toml --profile pb --test-threads 8 --offline",
            "source_commits": json.load(open(os.path.join(HERE, "tools/hook_commits.json"))),
            "add_only": True,
        },
        "engines": [{"name": e, "path": f"/verif/harness/src/bin/{e}.rs", "serves_properties": sorted(p), "kind_free_text": "bounded exhaustive explorer over the real implementation (see DESIGN.md §3.4)"} for e, p in sorted(engines.items())],
        "checks": checks,
        "not_applicable": [{"property_id": p, "reason": PENDING_REASON} for p in ALL if p not in CHECKS],
        "notes": "Exit protocol: 0 held / 1 VIOLATION / 2 machinery failure. Known findings: /verif/known_findings.json.",
    }
    json.dump(m, open(os.path.join(HERE, "MANIFEST.json"), "w"), indent=1)
    print("wrote MANIFEST.json with", len(checks), "checks")
main()
