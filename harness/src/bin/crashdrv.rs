//! Crash driver: signs in on a prepared data directory, performs exactly
//! one mutating operation between two marker syscalls and `_exit`s.
//! Run under strace by the crashx engine.
use sos_account::Account;
use sos_client_storage::{AccessOptions, NewFolderOptions};
use sos_core::{crypto::AccessKey, AccountId, SecretId, VaultFlags, VaultId};
use std::ffi::CString;
use std::path::PathBuf;
use vkit::acct::{Backend, Dev};
use vkit::{clock, gen};

fn marker(name: &str) {
    let c = CString::new(format!("/VERIF/{}", name)).unwrap();
    unsafe {
        libc::access(c.as_ptr(), libc::F_OK);
    }
}

fn main() {
    let a: Vec<String> = std::env::args().collect();
    let dir = PathBuf::from(&a[1]);
    let backend = if a[2] == "sqlite" { Backend::Db } else { Backend::Fs };
    let account_id: AccountId = a[3].parse().unwrap();
    let op = a[4].clone();
    let ids: serde_json::Value =
        serde_json::from_slice(&std::fs::read(&a[5]).unwrap()).unwrap();
    let server_dir_arg: Option<String> = ids.get("server_dir").and_then(|v| v.as_str()).map(|s| s.to_string());
    let diff_file_arg: Option<String> = ids.get("diff_file").and_then(|v| v.as_str()).map(|s| s.to_string());
    let vid = |k: &str| -> VaultId { ids[k].as_str().unwrap().parse().unwrap() };
    let sid = |k: &str| -> SecretId { ids[k].as_str().unwrap().parse().unwrap() };
    let rt = tokio::runtime::Builder::new_current_thread()
        .enable_all()
        .build()
        .unwrap();
    rt.block_on(async move {
        clock::install();
        clock::set_tick(0, 700_000);
        let mut dev = Dev::open(&dir, backend, account_id, vkit::acct::password())
            .await
            .expect("open");
        if op.starts_with("sync_") {
            // a real in-process server on the prepared server directory;
            // only effects under the client's data directory are replayed
            let server_dir = PathBuf::from(server_dir_arg.clone().unwrap());
            let server = vkit::world::start_server(&server_dir, false, None, None)
                .await
                .expect("server");
            let device = vkit::world::Device::connect(dev, 1, &server.origin)
                .await
                .expect("connect");
            marker("BEGIN");
            let r = device.sync().await;
            marker("END");
            if r != vkit::world::SyncResult::Ok {
                eprintln!("crashdrv: sync did not succeed: {:?}", r);
                unsafe { libc::_exit(3) };
            }
            unsafe { libc::_exit(0) };
        }
        let acc = &mut dev.account;
        let default = vid("default");
        let f1 = vid("f1");
        let in_folder = |f: VaultId| AccessOptions {
            folder: Some(f),
            ..Default::default()
        };
        marker("BEGIN");
        let r: anyhow::Result<()> = async {
            match op.as_str() {
                "create_secret" => {
                    let (m, s) = gen::secret("note", 0, "crash-new");
                    acc.create_secret(m, s, in_folder(default)).await?;
                }
                "update_secret" => {
                    // first of two rows of the default folder
                    let (m, s) = gen::secret("note", 1, "crash-upd");
                    acc.update_secret(&sid("s0"), m, Some(s), in_folder(default)).await?;
                }
                "delete_secret" => {
                    acc.delete_secret(&sid("s0"), in_folder(default)).await?;
                }
                "move_secret" => {
                    acc.move_secret(&sid("s0"), &default, &f1, Default::default()).await?;
                }
                "rename_folder" => {
                    acc.rename_folder(&default, "renamed-in-crash".to_string()).await?;
                }
                "set_flags" => {
                    acc.update_folder_flags(&f1, VaultFlags::LOCAL).await?;
                }
                "set_description" => {
                    acc.set_folder_description(&f1, "described in crash").await?;
                }
                "create_folder" => {
                    acc.create_folder(NewFolderOptions::new("crash-folder".to_string())).await?;
                }
                "delete_folder" => {
                    acc.delete_folder(&f1).await?;
                }
                "compact_folder" => {
                    acc.compact_folder(&default).await?;
                }
                "change_folder_password" => {
                    acc.change_folder_password(
                        &f1,
                        AccessKey::Password(secrecy::SecretString::new(
                            "a-new-folder-password-for-the-crash-test".to_string().into(),
                        )),
                    )
                    .await?;
                }
                "force_merge" => {
                    use sos_core::events::{patch::{FolderDiff, Patch}, EventRecord};
                    use sos_sync::{ForceMerge, MergeOutcome};
                    let v: serde_json::Value = serde_json::from_slice(&std::fs::read(diff_file_arg.clone().unwrap())?)?;
                    let mut recs: Vec<EventRecord> = vec![];
                    for r in v["records"].as_array().unwrap() {
                        recs.push(sos_core::decode(&hex::decode(r.as_str().unwrap())?).await?);
                    }
                    let checkpoint: sos_core::commit::CommitProof = sos_core::decode(&hex::decode(v["checkpoint"].as_str().unwrap())?).await?;
                    let diff = FolderDiff { patch: Patch::new(recs), checkpoint, last_commit: None };
                    acc.force_merge_folder(&default, diff, &mut MergeOutcome::default()).await?;
                }
                "sync_pull" | "sync_merge" => {
                    // handled below (needs the account moved into a device)
                    unreachable!()
                }
                other => anyhow::bail!("unknown op {}", other),
            }
            Ok(())
        }
        .await;
        marker("END");
        if let Err(e) = r {
            eprintln!("crashdrv: operation failed: {}", e);
            unsafe { libc::_exit(3) };
        }
        // for sqlite: leave without closing (no checkpoint)
        unsafe { libc::_exit(0) };
    });
}
